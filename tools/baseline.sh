#!/bin/bash
# Runs the repository's pinned suite with the verif guard OFF and reports stable_pass tests that did not pass.
# usage: tools/baseline.sh [repo_dir]
R=${1:-/repo}
cd "$R" || exit 2
OUT=$(mktemp)
unset RUSTFLAGS
CARGO_NET_OFFLINE=true cargo nextest run --workspace --no-fail-fast --test-threads 8 --offline > "$OUT" 2>&1
python3 - "$OUT" <<'PY'
import json, re, sys
out = open(sys.argv[1]).read()
base = json.load(open('/root/.vp/BASELINE.json'))
stable = set(base['stable_pass'])
status = {}
for m in re.finditer(r'^\s*(PASS|FAIL|SIGABRT|SIGSEGV|TIMEOUT|LEAK|FLAKY[^\[]*)\s+\[[^\]]*\]\s+\([^)]*\)\s+(\S+)\s+(\S+)\s*$', out, re.M):
    st, binid, name = m.group(1), m.group(2), m.group(3)
    # binid like "turdb" or "turdb::integration_sql"
    full = (binid + '::' + name) if '::' in binid else ('turdb::' + name if binid == 'turdb' else binid + '::' + name)
    if st == 'LEAK': st = 'PASS'  # passed, but nextest saw the process linger (load)
    if st == 'PASS' or full not in status:
        status[full] = st
missing = [t for t in stable if status.get(t) != 'PASS']
print('stable_pass total', len(stable), 'passed now', len(stable) - len(missing))
allpass = sum(1 for v in status.values() if v == 'PASS')
print('all tests passing now:', allpass, 'of', len(status))
for k,v in sorted(status.items()):
    if v != 'PASS': print('NONPASS(any):', k, v)
for t in sorted(missing)[:40]:
    print('NOT PASSING:', t, status.get(t))
sys.exit(1 if missing else 0)
PY
rc=$?
tail -3 "$OUT"
rm -f "$OUT"
exit $rc

#!/usr/bin/env python3
"""Rewrites the block between <!-- MUTANTS:BEGIN --> and <!-- MUTANTS:END --> in DESIGN.md from seeded/*/meta.json."""
import json, glob, os, re
rows = []
for d in sorted(glob.glob('/verif/seeded/C*-*')):
    mid = os.path.basename(d)
    try: m = json.load(open(d + '/meta.json'))
    except Exception: continue
    a = m.get('author', {})
    runs = [r for r in m.get('runs', []) if 'tier' in r]
    caught = [r for r in runs if r.get('exit') == 1 and r.get('violations')]
    if caught:
        c = caught[0]
        res = f"caught by {c['check']} ({c['tier']}, seed {c['seed']}): `{(c.get('signatures') or ['?'])[0][:80]}`"
    elif runs:
        checks = sorted({r['check'] for r in runs}); tiers = sorted({r['tier'] for r in runs})
        res = f"**missed** ({'/'.join(checks)}; {'+'.join(tiers)})"
    else:
        res = 'not evaluated (time)'
    if m.get('note'): res += ' — ' + m['note']
    summ = (a.get('summary') or m.get('summary') or '').replace('|', '/').replace('\n', ' ')
    rows.append(f"| {mid} | {summ[:150]} | {res} |")
n = len(rows); c = sum('caught by' in r for r in rows); mi = sum('**missed**' in r for r in rows)
block = ["<!-- MUTANTS:BEGIN -->", f"{n} seeded changes, {c} caught, {mi} missed, {n-c-mi} not evaluated.", "", "| id | change (author's summary) | result |", "|---|---|---|"] + rows + ["<!-- MUTANTS:END -->"]
s = open('/verif/DESIGN.md').read()
s = re.sub(r'<!-- MUTANTS:BEGIN -->.*?<!-- MUTANTS:END -->', lambda _: '\n'.join(block), s, flags=re.S)
open('/verif/DESIGN.md', 'w').write(s)
print(n, c, mi)

#!/usr/bin/env python3
"""Regenerates /verif/MANIFEST.json from tools/manifest_table.py (single source of truth)."""
import json, sys, os
sys.path.insert(0, os.path.dirname(__file__))
from manifest_table import CHECKS, HOOK_COMMITS, NOTES
props = [json.loads(l) for l in open('/verif/properties.jsonl')]
ids = [p['id'] for p in props]
checks = []
for pid in ids:
    c = CHECKS.get(pid)
    if not c or c.get('skip'):
        continue
    checks.append({
        'property_id': pid,
        'quick_cmd': f'./check {pid} --tier quick',
        'thorough_cmd': f'./check {pid} --tier thorough',
        'evidence_file': f'/verif/evidence/{pid}.json',
        'replay_cmd_template': f'./check {pid} --replay {{path}}',
        'engine': c['engine'],
        'level_claimed': {'category': c['level'], 'text': c['text'], 'design_ref': c.get('design_ref', 'DESIGN.md §3 ' + pid)},
        'level_note': c['note'],
        'technique': c['technique'],
    })
na = [{'property_id': pid, 'reason': (CHECKS.get(pid) or {}).get('skip', 'check not yet implemented in this framework (work in progress; the family does apply, see DESIGN.md §3)')}
      for pid in ids if pid not in {c['property_id'] for c in checks}]
m = {
    'version': 1,
    'setup_cmd': './setup.sh',
    'hooks': {
        'guard': '--cfg kahflane_turdb_verif',
        'enable': 'RUSTFLAGS="--cfg kahflane_turdb_verif" cargo build (harness crate /verif/harness has a path dependency on /repo)',
        'baseline_off_cmd': 'cd /repo && cargo nextest run --workspace --no-fail-fast --test-threads 8 --offline',
        'source_commits': HOOK_COMMITS,
        'add_only': True,
    },
    'engines': [
        {'name': 'tv', 'path': '/verif/harness', 'serves_properties': [c['property_id'] for c in checks],
         'kind_free_text': 'Rust harness crate (path-dep on /repo) with generators, reference models, invariant walkers, history checkers; driven by /verif/check which adds Miri/ASan/TSan stages'},
    ],
    'checks': checks,
    'notes': NOTES,
    'not_applicable': na,
}
json.dump(m, open('/verif/MANIFEST.json', 'w'), indent=1)
print('checks:', len(checks), 'not_applicable:', len(na))

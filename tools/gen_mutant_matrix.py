#!/usr/bin/env python3
"""Builds /verif/seeded/INDEX.md (and prints a compact table for DESIGN.md §8.7) from seeded/*/meta.json + confirm.json."""
import json, os, glob
rows = []
for d in sorted(glob.glob('/verif/seeded/C*-*')):
    mid = os.path.basename(d)
    try: meta = json.load(open(d + '/meta.json'))
    except Exception: continue
    conf = None
    if os.path.exists(d + '/confirm.json'):
        conf = json.load(open(d + '/confirm.json'))
    elif 'confirm' in meta and meta['confirm'].get('applies'):
        conf = meta['confirm']
    a = meta.get('author', {})
    runs = [r for r in meta.get('runs', []) if 'tier' in r]
    caught = [r for r in runs if r.get('exit') == 1 and r.get('violations')]
    first = caught[0] if caught else None
    if first:
        verdict = f"caught ({first['check']} {first['tier']} seed {first['seed']})"
        sig = (first.get('signatures') or [''])[0]
    elif runs:
        tiers = sorted({r['tier'] for r in runs})
        verdict = 'MISSED (' + '+'.join(tiers) + ')'
        sig = ''
    else:
        verdict = 'not evaluated'; sig = ''
    if conf:
        demo = conf.get('demo_with_patch', {})
        dh = conf.get('demo_on_head', {})
        demo_s = 'demo head:' + ','.join(sorted(set(dh.values()))) + ' patch:' + ','.join(sorted(set(demo.values()))) if demo else 'no deterministic demo (demo.md)'
        suite = conf.get('suite', 'suite not re-run (author ran it)')
        if conf.get('suite_retry'):
            suite += ' ; retried alone: ' + json.dumps(conf['suite_retry'])
        conf_s = demo_s + ' ; ' + suite
    else:
        conf_s = 'confirmation pending'
    rows.append((mid, meta.get('property'), a.get('summary', '')[:160].replace('|', '/'), a.get('needs_to_manifest', '')[:200].replace('|', '/'), verdict, sig, conf_s, meta.get('note', '')))
out = ['# Seeded changes (written by blind authors given only the property text) and what the checks did with them', '',
       '| id | change | needs | result | first signature | confirmation |', '|---|---|---|---|---|---|']
for r in rows:
    out.append(f'| {r[0]} | {r[2]} | {r[3]} | {r[4]}{(" — " + r[7]) if r[7] else ""} | `{r[5]}` | {r[6]} |')
open('/verif/seeded/INDEX.md', 'w').write('\n'.join(out) + '\n')
n = len(rows); c = sum(1 for r in rows if r[4].startswith('caught')); m = sum(1 for r in rows if r[4].startswith('MISSED'))
print(f'{n} mutants: {c} caught, {m} missed, {n-c-m} not evaluated')
for r in rows:
    print(f'{r[0]:7} {r[4]:42} {r[5][:90]}')

#!/usr/bin/env python3
"""kf.py add <id> <property> <sig> <summary>   |   kf.py fixed <property> <commit-subject-substring> <what failed>"""
import json, sys, subprocess
p='/verif/known_findings.json'
k=json.load(open(p))
if sys.argv[1]=='add':
    _,_,i,prop,sig,summ=sys.argv
    k['findings']=[f for f in k['findings'] if f['id']!=i]
    k['findings'].append({"id":i,"property":prop,"sig":sig,"summary":summ,"status":"open"})
elif sys.argv[1]=='fixed':
    _,_,prop,sub,what=sys.argv
    log=subprocess.check_output(['git','-C','/repo','log','--format=%h %s'],text=True).splitlines()
    sha=[l.split()[0] for l in log if sub in l][0]
    k['fixed'].append(f"fixed: property={prop} {sha} {what}")
json.dump(k,open(p,'w'),indent=1)

#!/usr/bin/env python3
"""kf_audit.py <tv-binary> <seeds comma> [props...]: runs quick tiers with TV_STAGE=audit, reports per property the
known findings that were hit, the listed ones never hit, and unexplained signatures. Writes scratch/kf_audit.json."""
import json, os, re, subprocess, sys, concurrent.futures as cf
tv = sys.argv[1]; seeds = sys.argv[2].split(','); props = sys.argv[3:] or [f'C{i:02}' for i in range(1, 44)]
def run(ps):
    p, s = ps
    env = dict(os.environ); env['TV_STAGE'] = f'audit{s}'
    try:
        out = subprocess.run([tv, p, '--tier', os.environ.get('AUDIT_TIER', 'quick'), '--seed', s], cwd='/verif', env=env, stdout=subprocess.PIPE, stderr=subprocess.STDOUT, text=True, timeout=int(os.environ.get('AUDIT_TIMEOUT', '1800'))).stdout
    except subprocess.TimeoutExpired:
        return p, s, None, ['TIMEOUT'], ''
    hits = {}
    m = re.search(r'known_hits=(\{.*?\}) wall', out)
    if m:
        try: hits = json.loads(m.group(1))
        except Exception: pass
    unexpl = [re.sub(r'^\s*unexplained signature x\d+: ', '', l) for l in out.splitlines() if 'unexplained signature' in l]
    summ = [l for l in out.splitlines() if l.startswith('[' + p + ']')]
    inc = [l for l in out.splitlines() if l.startswith('INCONCLUSIVE')]
    return p, s, hits, unexpl + inc, (summ[-1] if summ else out[-300:])
res = {}
with cf.ThreadPoolExecutor(max_workers=3) as ex:
    for p, s, hits, unexpl, summ in ex.map(run, [(p, s) for p in props for s in seeds]):
        r = res.setdefault(p, {'hit': {}, 'unexplained': {}, 'summaries': []})
        for k, v in (hits or {}).items(): r['hit'][k] = r['hit'].get(k, 0) + v
        for u in unexpl: r['unexplained'][u] = r['unexplained'].get(u, 0) + 1
        r['summaries'].append(re.sub(r'known_hits=\{.*?\} ', '', summ)[:200])
        print(p, s, 'unexplained:', len(unexpl), flush=True)
kf = json.load(open('/verif/known_findings.json'))
for p in props:
    listed = [f['id'] for f in kf['findings'] if f['property'] == p]
    res[p]['never_hit'] = [i for i in listed if i not in res[p]['hit']]
json.dump(res, open('/verif/scratch/kf_audit_' + os.environ.get('AUDIT_TIER', 'quick') + '.json', 'w'), indent=1)
for p in props:
    print(p, 'never_hit:', res[p]['never_hit'], 'unexplained:', list(res[p]['unexplained'])[:8])

HOOK_COMMITS = []
NOTES = "Runtime monitoring / sanitizers only. Verdicts are about the executions produced; see DESIGN.md. Known findings: /verif/known_findings.json."
CHECKS = {
 'C27': dict(engine='tv', level='exploration', technique='runtime monitor: round-trip/length oracle over enumerated + random inputs; Miri stage in thorough',
   text='Exhaustive over all values < 2^20 (quick) / 2^24 (thorough), every length-class boundary +-4096, 3M/200M random u64; decoder on every byte string of length <= 2 (and all 3-byte strings), 2M/50M random strings <= 9 bytes. Each case checks value, consumed length == varint_len, writes/reads inside the buffer, no panic.',
   note="Not a proof over 2^64 values: an error confined to values outside the enumerated ranges and never hit by the random sample would be missed. Miri (thorough) checks the same code for UB on a boundary subset."),
 'C30': dict(engine='tv', level='exploration', technique='runtime monitor: differential oracle (binary search over extracted keys) on generated leaf pages; both narrowing kernels asserted to bracket the answer; Miri stage executes the scalar dispatch',
   text='Pages built through the real LeafNodeMut from sorted key sets of size 0..400 with adversarial 4-byte-prefix structure (8 styles + aligned sweep of equal-prefix runs 1..40 at offsets 0..15 from the 8-lane grid); every stored key, its neighbours, same-prefix extremes and random probes; find_key_simd and LeafNode::find_key must equal binary search, and simd_prefix_search_{avx2,scalar} must return a range containing the answer.',
   note='Sampled pages/probes, not all key sets. Native runs take the AVX2 dispatch on this CPU; the scalar dispatch end-to-end is executed only in the Miri stage (thorough), the scalar kernel is additionally called directly in every run. NEON is not reachable on this machine.'),
}

HOOK_COMMITS = []
NOTES = "Runtime monitoring / sanitizers only. Verdicts are about the executions produced; see DESIGN.md. Known findings: /verif/known_findings.json."
CHECKS = {
 'C27': dict(engine='tv', level='exploration', technique='runtime monitor: round-trip/length oracle over enumerated + random inputs; Miri stage in thorough',
   text='Exhaustive over all values < 2^20 (quick) / 2^24 (thorough), every length-class boundary +-4096, 3M/200M random u64; decoder on every byte string of length <= 2 (and all 3-byte strings), 2M/50M random strings <= 9 bytes. Each case checks value, consumed length == varint_len, writes/reads inside the buffer, no panic.',
   note="Not a proof over 2^64 values: an error confined to values outside the enumerated ranges and never hit by the random sample would be missed. Miri (thorough) checks the same code for UB on a boundary subset."),
}

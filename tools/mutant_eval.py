#!/usr/bin/env python3
"""mutant_eval.py <src_dir> [--checks C28,C29] [--seeds 1,2] [--thorough] [--no-confirm] [--no-suite]

Evaluates one seeded mutant (directory with patch.diff, demo file(s), meta.json from a blind author):
 A. confirm (scratch worktree /tmp/mev-wt, removed afterwards): the patch applies and compiles, the
    pinned suite still passes with it (tools/baseline.sh), the author's demonstration test fails with
    the patch and passes without it;
 B. sensitivity: `git -C /repo apply patch.diff`, run ./check <P> --tier quick (--seed s for each seed;
    then thorough if still silent and --thorough), `git -C /repo checkout -- .`.
Writes /verif/seeded/<id>/{patch.diff, demo files, meta.json}. Never commits anything to /repo."""
import json, os, re, shutil, subprocess, sys, time

V = '/verif'

def sh(cmd, cwd=None, timeout=None, env=None):
    p = subprocess.run(cmd, cwd=cwd, shell=isinstance(cmd, str), stdout=subprocess.PIPE, stderr=subprocess.STDOUT, text=True, timeout=timeout, env=env)
    return p.returncode, p.stdout

def main():
    a = sys.argv[1:]
    src = a[0].rstrip('/')
    mid = os.path.basename(src)
    checks = None; seeds = ['1', '2']; thorough = False; confirm = True; suite = True; sens = True; stages = False
    i = 1
    while i < len(a):
        if a[i] == '--checks': checks = a[i+1].split(','); i += 2
        elif a[i] == '--seeds': seeds = a[i+1].split(','); i += 2
        elif a[i] == '--thorough': thorough = True; i += 1
        elif a[i] == '--no-confirm': confirm = False; i += 1
        elif a[i] == '--no-suite': suite = False; i += 1
        elif a[i] == '--no-sens': sens = False; i += 1
        elif a[i] == '--stages': stages = True; i += 1
        else: i += 1
    dst = f'{V}/seeded/{mid}'
    os.makedirs(dst, exist_ok=True)
    for f in os.listdir(src):
        if os.path.isfile(os.path.join(src, f)) and not f.endswith('.orig'):
            if f == 'meta.json' and os.path.exists(os.path.join(dst, 'meta.json')):
                continue
            shutil.copy(os.path.join(src, f), os.path.join(dst, f))
    try:
        author = json.load(open(os.path.join(src, 'meta.json')))
    except Exception:
        author = {}
    try:
        meta = json.load(open(os.path.join(dst, 'meta.json')))
    except Exception:
        meta = {}
    if 'author' not in meta:
        meta = {'id': mid, 'property': author.get('property', mid.split('-')[0]), 'author': author}
    prop = meta['property']
    if checks is None:
        checks = [prop]
    patch = os.path.join(dst, 'patch.diff')
    # (the confirm-only pipeline must not look at /repo's working tree: the sensitivity pipeline may
    # have another mutant applied there at this moment)
    rc, out = sh(['git', '-C', '/repo', 'apply', '--check', patch]) if sens else (0, '')
    if rc != 0:
        meta['confirm'] = {'applies': False, 'detail': out[-500:]}
        json.dump(meta, open(os.path.join(dst, 'meta.json'), 'w'), indent=1)
        print(mid, 'PATCH DOES NOT APPLY'); return
    # ---------------- A. confirm
    if confirm:
        wt = '/tmp/mev-wt' + os.environ.get('MEV_ID', ''); tgt = '/tmp/mev-target' + os.environ.get('MEV_ID', '')
        sh(['git', '-C', '/repo', 'worktree', 'remove', '--force', wt])
        shutil.rmtree(wt, ignore_errors=True)
        rc, out = sh(['git', '-C', '/repo', 'worktree', 'add', '--detach', wt, 'HEAD'])
        conf = {'applies': True}
        env = dict(os.environ); env['CARGO_TARGET_DIR'] = tgt; env['CARGO_NET_OFFLINE'] = 'true'; env.pop('RUSTFLAGS', None)
        demos = [f for f in os.listdir(dst) if f.startswith('mutdemo_') and f.endswith('.rs')]
        for d in demos:
            shutil.copy(os.path.join(dst, d), os.path.join(wt, 'tests', d))
        def run_demos():
            res = {}
            for d in demos:
                name = d[:-3]
                rc, out = sh(['cargo', 'test', '--offline', '-q', '--test', name, '-j', '8'], cwd=wt, env=env, timeout=3000)
                res[name] = 'pass' if rc == 0 else ('fail' if ('test result: FAILED' in out or 'panicked' in out) else 'error: ' + out[-300:])
            return res
        conf['demo_on_head'] = run_demos()
        rc, out = sh(['git', 'apply', patch], cwd=wt)
        conf['demo_with_patch'] = run_demos()
        if suite:
            e2 = dict(env)
            rc, out = sh(f'CARGO_TARGET_DIR={tgt} {V}/tools/baseline.sh {wt}', timeout=5000)
            m = re.search(r'stable_pass total (\d+) passed now (\d+)', out)
            conf['suite'] = m.group(0) if m else 'unparsed: ' + out[-300:]
            conf['suite_not_passing'] = re.findall(r'NOT PASSING: (\S+)', out)[:10]
            # a stable test that did not pass may be load-induced flakiness: re-run each alone, three times
            retry = {}
            for t in conf['suite_not_passing']:
                name = t.split('::')[-1]
                ok = 0
                for _ in range(3):
                    rc2, out2 = sh(['cargo', 'nextest', 'run', '--workspace', '--offline', '-E', f'test(~{name})'], cwd=wt, env=env, timeout=1800)
                    ok += 1 if rc2 == 0 and ' passed' in out2 else 0
                retry[t] = f'{ok}/3 passed alone'
            conf['suite_retry'] = retry
        sh(['git', '-C', '/repo', 'worktree', 'remove', '--force', wt])
        shutil.rmtree(wt, ignore_errors=True)
        json.dump(conf, open(os.path.join(dst, 'confirm.json'), 'w'), indent=1)
        if sens:
            meta['confirm'] = conf
            json.dump(meta, open(os.path.join(dst, 'meta.json'), 'w'), indent=1)
        print(mid, 'confirm:', json.dumps(conf))
    # ---------------- B. sensitivity
    if not sens:
        return
    try:
        meta = json.load(open(os.path.join(dst, 'meta.json')))
    except Exception:
        pass
    rc, out = sh(['git', '-C', '/repo', 'status', '--porcelain', '--untracked-files=no'])
    if out.strip():
        print('REFUSING: /repo working tree is not clean:', out); sys.exit(3)
    runs = meta.setdefault('runs', [])
    rc, out = sh(['git', '-C', '/repo', 'apply', patch])
    try:
        for c in checks:
            caught = False
            plan = [('quick', s) for s in seeds] + ([('thorough', seeds[0])] if thorough else [])
            for tier, s in plan:
                if caught:
                    break  # first catch is enough (saves machine time)
                t0 = time.time()
                env = dict(os.environ); env['TV_NO_EVIDENCE_CLOBBER'] = '1'
                if not stages: env['TV_SKIP_STAGES'] = '1'
                rc, out = sh([f'{V}/check', c, '--tier', tier, '--seed', s], cwd=V, timeout=7200, env=env)
                viol = [l for l in out.splitlines() if l.startswith('VIOLATION property=')]
                sigs = [re.sub(r'^\s*unexplained signature x\d+: ', '', l) for l in out.splitlines() if 'unexplained signature' in l]
                inc = [l for l in out.splitlines() if l.startswith('INCONCLUSIVE')]
                r = {'check': c, 'tier': tier, 'seed': s, 'exit': rc, 'violations': len(viol), 'signatures': sigs[:12], 'inconclusive': inc[:2], 'wall_s': round(time.time() - t0, 1)}
                runs.append(r)
                print(mid, json.dumps(r))
                if rc == 1 and viol:
                    caught = True
    finally:
        sh(['git', '-C', '/repo', 'checkout', '--', '.'])
    meta['caught_by'] = sorted({f"{r['check']}:{r['tier']}" for r in runs if r['exit'] == 1 and r['violations']})
    json.dump(meta, open(os.path.join(dst, 'meta.json'), 'w'), indent=1)

main()

#!/usr/bin/env python3
"""mutant_lane.py <lane-number> <mutant-id>...

Parallel variant of the sensitivity step of mutant_eval.py for throughput: instead of /repo it uses a private
worktree of /repo's HEAD (/tmp/lane<N>-repo), a private copy of the harness whose turdb dependency points at that
worktree (/tmp/lane<N>-hw) and a private target dir (/verif/target-lane<N>).  The check code is the same; it is run
as `tv <P> --tier <t> --seed <s>` with cwd=/verif and TV_STAGE=lane<N> (evidence goes to evidence/stages/).
Not usable for C22/C23 (their panic-site signatures are derived from the /repo/ path prefix)."""
import json, os, re, shutil, subprocess, sys, time

V = '/verif'

def sh(cmd, cwd=None, timeout=None, env=None):
    p = subprocess.run(cmd, cwd=cwd, stdout=subprocess.PIPE, stderr=subprocess.STDOUT, text=True, timeout=timeout, env=env)
    return p.returncode, p.stdout

def main():
    lane = sys.argv[1]; ids = sys.argv[2:]
    repo = f'/tmp/lane{lane}-repo'; hw = f'/tmp/lane{lane}-hw'; tgt = f'{V}/target-lane{lane}'
    sh(['git', '-C', '/repo', 'worktree', 'remove', '--force', repo]); shutil.rmtree(repo, ignore_errors=True)
    sh(['git', '-C', '/repo', 'worktree', 'prune'])
    rc, out = sh(['git', '-C', '/repo', 'worktree', 'add', '--detach', repo, 'HEAD'])
    if rc != 0:
        print('worktree failed', out); sys.exit(2)
    sh(['rsync', '-a', '--delete', '--exclude', 'target', f'{V}/harness/', hw + '/'])
    ct = open(f'{hw}/Cargo.toml').read().replace('path = "/repo"', f'path = "{repo}"')
    open(f'{hw}/Cargo.toml', 'w').write(ct)
    env = dict(os.environ); env.update({'CARGO_TARGET_DIR': tgt, 'CARGO_NET_OFFLINE': 'true', 'RUSTFLAGS': '--cfg kahflane_turdb_verif'})
    for mid in ids:
        override = None
        if ':' in mid:
            mid, override = mid.split(':', 1)  # <mutant>:<check to run instead of the property's own>
        src = f'/tmp/mutants/{mid}'; dst = f'{V}/seeded/{mid}'
        os.makedirs(dst, exist_ok=True)
        for f in os.listdir(src):
            if os.path.isfile(os.path.join(src, f)) and f != 'meta.json':
                shutil.copy(os.path.join(src, f), os.path.join(dst, f))
        try: author = json.load(open(os.path.join(src, 'meta.json')))
        except Exception: author = {}
        try: meta = json.load(open(os.path.join(dst, 'meta.json')))
        except Exception: meta = {}
        if 'author' not in meta:
            meta = {'id': mid, 'property': author.get('property', mid.split('-')[0]), 'author': author}
        prop = override or meta['property']
        patch = os.path.join(dst, 'patch.diff')
        sh(['git', 'checkout', '--', '.'], cwd=repo)
        rc, out = sh(['git', 'apply', patch], cwd=repo)
        if rc != 0:
            meta.setdefault('runs', []).append({'check': prop, 'error': 'patch does not apply on HEAD: ' + out[-300:]})
            json.dump(meta, open(os.path.join(dst, 'meta.json'), 'w'), indent=1)
            print(mid, 'PATCH DOES NOT APPLY', flush=True); continue
        t0 = time.time()
        rc, out = sh(['cargo', 'build', '--offline', '-q', '-j', '6'], cwd=hw, env=env, timeout=3600)
        if rc != 0:
            meta.setdefault('runs', []).append({'check': prop, 'error': 'build failed: ' + out[-500:]})
            json.dump(meta, open(os.path.join(dst, 'meta.json'), 'w'), indent=1)
            print(mid, 'BUILD FAILED', out[-300:], flush=True); continue
        build_s = round(time.time() - t0, 1)
        runs = meta.setdefault('runs', [])
        caught = False
        plan = [('quick', '1'), ('quick', '2'), ('thorough', '1')]
        if prop in ('C01', 'C02', 'C40'):
            plan = plan[:2]  # the crash engines' thorough tier takes > 50 min on the loaded machine
        for tier, s in plan:
            if caught: break
            e2 = dict(os.environ); e2['TV_STAGE'] = f'lane{lane}'
            t0 = time.time()
            try:
                rc, out = sh([f'{tgt}/debug/tv', prop, '--tier', tier, '--seed', s], cwd=V, env=e2, timeout=2400)
            except subprocess.TimeoutExpired:
                rc, out = 2, 'INCONCLUSIVE watchdog'
            viol = [l for l in out.splitlines() if l.startswith('VIOLATION property=')]
            sigs = [re.sub(r'^\s*unexplained signature x\d+: ', '', l) for l in out.splitlines() if 'unexplained signature' in l]
            inc = [l for l in out.splitlines() if l.startswith('INCONCLUSIVE')]
            r = {'check': prop, 'tier': tier, 'seed': s, 'exit': rc, 'violations': len(viol), 'signatures': sigs[:12], 'inconclusive': inc[:2], 'wall_s': round(time.time() - t0, 1), 'via': f'lane (private worktree), build {build_s}s'}
            runs.append(r)
            print(mid, json.dumps(r), flush=True)
            if rc == 1 and viol: caught = True
        meta['caught_by'] = sorted({f"{r['check']}:{r['tier']}" for r in runs if r.get('exit') == 1 and r.get('violations')})
        json.dump(meta, open(os.path.join(dst, 'meta.json'), 'w'), indent=1)
    sh(['git', 'checkout', '--', '.'], cwd=repo)
    sh(['git', '-C', '/repo', 'worktree', 'remove', '--force', repo]); shutil.rmtree(repo, ignore_errors=True)
    shutil.rmtree(hw, ignore_errors=True)

main()

#!/bin/bash
# Build the harness from a private copy; files that fail to compile (agents mid-edit) are replaced by their
# stub (props/cXX.rs) or last committed version (anything else) and the build is retried.
STUB=bc7c79d
mkdir -p /verif/scratch/hw
rsync -a --delete --exclude target /verif/harness/ /verif/scratch/hw/
cd /verif/scratch/hw
for i in 1 2 3 4 5 6 7 8 9 10 11 12; do
  OUT=$(CARGO_NET_OFFLINE=true RUSTFLAGS="--cfg kahflane_turdb_verif" cargo build -q "$@" 2>&1)
  if ! echo "$OUT" | grep -q "^error"; then exit 0; fi
  BAD=$(echo "$OUT" | grep -A6 "^error" | grep -oE "src/(props|sqlm)/[a-z0-9_]+\.rs" | sort -u | head -3)
  if [ -z "$BAD" ]; then echo "$OUT" | grep -E "^error" -A14 | head -60; exit 1; fi
  for f in $BAD; do
    b=$(basename $f .rs)
    if [[ "$f" == src/props/c[0-9][0-9].rs ]] && git -C /verif cat-file -e $STUB:harness/$f 2>/dev/null && [ ! -e /verif/scratch/hw/.stubbed_$b ]; then
      git -C /verif show $STUB:harness/$f > $f; touch /verif/scratch/hw/.stubbed_$b; echo "mybuild: stubbed $f"
    else
      git -C /verif show HEAD:harness/$f > $f 2>/dev/null && echo "mybuild: reverted $f to HEAD" || { echo "$OUT" | grep -E "^error" -A14 | head -60; exit 1; }
    fi
  done
done
echo "mybuild: gave up"; exit 1

#!/bin/bash
# Build the harness from a private copy in which files still owned by builder agents are replaced by their committed version.
AGENT_FILES="${AGENT_FILES:-c15 c16 c17 c18 c19 c20}"
mkdir -p /verif/scratch/hw
rsync -a --delete --exclude target /verif/harness/ /verif/scratch/hw/
for f in $AGENT_FILES; do git -C /verif show bc7c79d:harness/src/props/$f.rs > /verif/scratch/hw/src/props/$f.rs; done
cd /verif/scratch/hw && CARGO_NET_OFFLINE=true RUSTFLAGS="--cfg kahflane_turdb_verif" cargo build -q "$@" 2>&1 | grep -E "^error" -A14 | head -60

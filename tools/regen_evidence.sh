#!/bin/bash
# Regenerates evidence/<id>.json for every registered property with the quick tier (3 checks in parallel).
# usage: tools/regen_evidence.sh [seed]
cd /verif
SEED=${1:-1}
mkdir -p scratch/regen
ls scratch/regen/*.log >/dev/null 2>&1 && rm -f scratch/regen/*.log
for i in $(seq -w 1 43); do echo C$i; done | xargs -P 3 -I{} sh -c './check {} --tier quick --seed '"$SEED"' > scratch/regen/{}.log 2>&1; echo "{} exit=$?"'

#!/bin/bash
# usage: tools/sweep.sh <tier> <seed> [parallel]   runs every check without touching evidence/<id>.json
cd /verif
T=$1; S=$2; P=${3:-3}
mkdir -p scratch/sweep-$T-$S
for i in $(seq -w 1 43); do echo C$i; done | TV_NO_EVIDENCE_CLOBBER=1 xargs -P $P -I{} sh -c './check {} --tier '"$T"' --seed '"$S"' > scratch/sweep-'"$T-$S"'/{}.log 2>&1; echo "{} exit=$?"'

#!/opt/veriftools/pyvenv/bin/python
import json, jsonschema, glob, sys
jsonschema.validate(json.load(open('/verif/MANIFEST.json')), json.load(open('/root/.vp/MANIFEST.schema.json')))
print("manifest ok")
s = json.load(open('/root/.vp/EVIDENCE.schema.json'))
bad = 0
for f in sorted(glob.glob('/verif/evidence/C*.json')):
    try:
        jsonschema.validate(json.load(open(f)), s)
    except Exception as e:
        bad += 1; print("BAD", f, str(e)[:300])
print("evidence files checked, bad =", bad)
sys.exit(1 if bad else 0)
